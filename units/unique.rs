// Unit U-unique: unique_function_names — the step of create_event_contexts that makes the listener function names
// of events.ts pairwise different (C12: "under a legal and unique function identifier")
#![feature(allocator_api)]
#![feature(slice_concat_trait)]
#![feature(pattern)]
#![allow(unused_imports, unused_variables, dead_code, unused_mut)]
use vstd::prelude::*;
use vstd::std_specs::hash::*;
use vstd::std_specs::iter::IteratorSpec;
use std::collections::{HashMap, HashSet};
use std::alloc::Allocator;

//@ INCLUDE prelude/base.rs
//@ INCLUDE prelude/fmt.rs
//@ INCLUDE prelude/strpat.rs
use vpre::*;
use vfmt::*;
use vstr::*;

verus! {

broadcast use {vstd::std_specs::hash::group_hash_axioms, vpre::group_string_keys, vfmt::group_disp, vfmt::group_disp_usize};

//@ FORMAT-MACRO

// ------------------------------------------------------------------ specification (from C12)
/// the k-th candidate for a base name: the name itself, then name2, name3, ...
pub open spec fn tried(name: Seq<char>, k: int) -> Seq<char> {
    if k <= 1 { name } else { name + disp_spec::<usize>(&(k as usize)) }
}

/// `r` is `name` or `name` followed by one of the decimal numbers 2..=bound
pub open spec fn is_candidate_of(r: String, name: String, bound: int) -> bool {
    exists|k: int| 1 <= k <= bound && r@ == tried(name@, k)
}

pub open spec fn ascii_alnum(c: char) -> bool {
    ('a' <= c && c <= 'z') || ('A' <= c && c <= 'Z') || ('0' <= c && c <= '9')
}
pub open spec fn name_char(c: char) -> bool { ascii_alnum(c) || c == '_' || c == '$' }
/// a TypeScript identifier (ASCII): the same definition as in unit naming
pub open spec fn ts_ident(s: Seq<char>) -> bool {
    s.len() > 0 && !('0' <= s[0] && s[0] <= '9') && forall|i: int| 0 <= i < s.len() ==> name_char(#[trigger] s[i])
}

/// TRUSTED (Rust language guarantee): the byte size of a slice never exceeds isize::MAX, so a slice of a type that
/// occupies at least one byte has fewer than usize::MAX elements
pub broadcast axiom fn axiom_slice_of_strings_len(s: &[String])
    ensures #[trigger] s@.len() < usize::MAX;

// candidates of one base name are pairwise different
pub proof fn lemma_tried_injective(name: Seq<char>, a: int, b: int)
    requires 1 <= a <= usize::MAX, 1 <= b <= usize::MAX, a != b,
    ensures tried(name, a) != tried(name, b),
{
    let ua = a as usize; let ub = b as usize;
    if a >= 2 && b >= 2 {
        if tried(name, a) == tried(name, b) {
            let da = disp_spec::<usize>(&ua); let db = disp_spec::<usize>(&ub);
            assert((name + da).subrange(name.len() as int, (name + da).len() as int) == da);
            assert((name + db).subrange(name.len() as int, (name + db).len() as int) == db);
            assert(da == db);
        }
    } else if a >= 2 {
        assert(is_digits(disp_spec::<usize>(&ua)));
        assert(tried(name, a).len() > name.len());
    } else {
        assert(is_digits(disp_spec::<usize>(&ub)));
        assert(tried(name, b).len() > name.len());
    }
}

/// pigeonhole: if the first n candidates are all elements of `taken`, then n <= |taken|
pub proof fn lemma_pigeonhole(taken: Seq<String>, name: Seq<char>, n: int)
    requires
        0 <= n < usize::MAX,
        forall|k: int| 1 <= k <= n ==> taken.contains(#[trigger] string_of(tried(name, k))),
    ensures n <= taken.len(),
    decreases n,
{
    if n > 0 {
        // remove the element that equals the n-th candidate; the first n-1 candidates are still there
        let x = string_of(tried(name, n));
        let i = choose|i: int| 0 <= i < taken.len() && taken[i] == x;
        let rest = taken.remove(i);
        assert forall|k: int| 1 <= k <= n - 1 implies rest.contains(#[trigger] string_of(tried(name, k))) by {
            let y = string_of(tried(name, k));
            lemma_tried_injective(name, k, n);
            assert(y@ != x@);
            let j = choose|j: int| 0 <= j < taken.len() && taken[j] == y;
            assert(j != i);
            if j < i { assert(rest[j] == y); } else { assert(rest[j - 1] == y); }
        }
        lemma_pigeonhole(rest, name, n - 1);
    }
}

//@ EXTRACT-FN file=src/generators/mod.rs fn=unique_function_names props=C12
//@ RETURNS r
//@ CONTRACT
//@|    ensures
//@|        r@.len() == names@.len(),
//@|        // C12: the names under which the listeners are exported are pairwise different
//@|        r@.no_duplicates(),
//@|        // each is its base name or the base name followed by a decimal number (still an identifier: lemma below)
//@|        forall|i: int| 0 <= i < r@.len() ==> is_candidate_of(#[trigger] r@[i], names@[i], i + 1),
//@|        // a base name nobody took before is kept as it is
//@|        forall|i: int| 0 <= i < r@.len() && (forall|j: int| 0 <= j < i ==> r@[j] != names@[i]) ==> #[trigger] r@[i] == names@[i],
//@ LOOP 1 ITER=it
//@|    invariant
//@|        it.snapshot@.remaining() == names@.map_values(|s: String| &s),
//@|        0 <= it.index@ <= names@.len(),
//@|        unique@.len() == it.index@,
//@|        unique@.no_duplicates(),
//@|        forall|i: int| 0 <= i < unique@.len() ==> is_candidate_of(#[trigger] unique@[i], names@[i], i + 1),
//@|        forall|i: int| 0 <= i < unique@.len() && (forall|j: int| 0 <= j < i ==> unique@[j] != names@[i]) ==> #[trigger] unique@[i] == names@[i],
//@ BEFORE `let mut candidate = name.clone();`
//@|    let ghost idx = it.index@;
//@|    proof { assert(*name == names@[idx]); }
//@ LOOP 2
//@|    invariant
//@|        2 <= suffix,
//@|        *name == names@[idx],
//@|        0 <= idx < names@.len(), unique@.len() == idx,
//@|        candidate@ == tried(name@, suffix - 1),
//@|        forall|k: int| 1 <= k < suffix - 1 ==> unique@.contains(#[trigger] string_of(tried(name@, k))),
//@|        suffix - 2 <= unique@.len(),
//@|    decreases unique@.len() + 2 - suffix,
//@ BEFORE `candidate = format!("{}{}", name, suffix);`
//@|    proof {
//@|        // the candidate just found taken is the (suffix-1)-th one: the first suffix-1 candidates are all taken
//@|        assert(candidate == string_of(tried(name@, suffix - 1)));
//@|        assert forall|k: int| 1 <= k <= suffix - 1 implies unique@.contains(#[trigger] string_of(tried(name@, k))) by { }
//@|        lemma_pigeonhole(unique@, name@, suffix - 1);
//@|        axiom_slice_of_strings_len(names);
//@|    }
//@ AFTER `candidate = format!("{}{}", name, suffix);`
//@|    proof { assert(candidate@ == tried(name@, suffix as int)); }
//@ AFTER-LOOP 2
//@|    let ghost u0 = unique@;
//@|    let ghost taken_first = suffix > 2;
//@|    proof {
//@|        assert(!u0.contains(candidate));
//@|        if suffix == 2 { assert(candidate@ == name@); assert(candidate == *name); }
//@|        else {
//@|            assert(u0.contains(string_of(tried(name@, 1))));
//@|            assert(string_of(tried(name@, 1))@ == name@);
//@|            assert(string_of(tried(name@, 1)) == *name);
//@|            assert(u0.contains(*name));
//@|        }
//@|    }
//@ AFTER `unique.push(candidate);`
//@|    proof {
//@|        assert(unique@ == u0.push(candidate));
//@|        assert(unique@.len() == idx + 1);
//@|        assert(unique@[idx]@ == tried(names@[idx]@, suffix - 1));
//@|        assert forall|i: int| 0 <= i < unique@.len() implies is_candidate_of(#[trigger] unique@[i], names@[i], i + 1) by {
//@|            if i < idx {
//@|                assert(unique@[i] == u0[i]);
//@|                assert(is_candidate_of(u0[i], names@[i], i + 1));
//@|            } else {
//@|                let k = suffix - 1;
//@|                assert(1 <= k <= i + 1 && unique@[i]@ == tried(names@[i]@, k));
//@|            }
//@|        }
//@|        assert forall|i: int| 0 <= i < unique@.len() && (forall|j: int| 0 <= j < i ==> unique@[j] != names@[i]) implies #[trigger] unique@[i] == names@[i] by {
//@|            if i < idx {
//@|                assert(unique@[i] == u0[i]);
//@|                assert forall|j: int| 0 <= j < i implies u0[j] != names@[i] by { assert(unique@[j] == u0[j]); }
//@|            } else {
//@|                if taken_first {
//@|                    let j = choose|j: int| 0 <= j < u0.len() && u0[j] == *name;
//@|                    assert(unique@[j] == u0[j]);
//@|                    assert(false);
//@|                }
//@|            }
//@|        }
//@|        assert(unique@.no_duplicates()) by {
//@|            assert forall|a: int, b: int| 0 <= a < unique@.len() && 0 <= b < unique@.len() && a != b implies unique@[a] != unique@[b] by {
//@|                if a < idx && b < idx { assert(unique@[a] == u0[a] && unique@[b] == u0[b]); }
//@|                else if a < idx { assert(unique@[a] == u0[a]); assert(u0.contains(u0[a])); }
//@|                else { assert(unique@[b] == u0[b]); assert(u0.contains(u0[b])); }
//@|            }
//@|        }
//@|    }
//@ END

//@ PROPS C12 C01
/// C12/C01: appending the decimal suffix keeps a legal identifier legal
pub proof fn lemma_C12_suffixed_name_is_an_identifier(name: Seq<char>, k: int)
    requires ts_ident(name), 1 <= k <= usize::MAX,
    ensures ts_ident(tried(name, k)),
{
    if k >= 2 {
        let u = k as usize;
        let d = disp_spec::<usize>(&u);
        assert(is_digits(d));
        let t = name + d;
        assert(t[0] == name[0]);
        assert forall|i: int| 0 <= i < t.len() implies name_char(#[trigger] t[i]) by {
            if i < name.len() { assert(t[i] == name[i]); } else { assert(t[i] == d[i - name.len()]); }
        }
    }
}

//@ AUTO-FREE-FNS
} // verus!
fn main() {}
