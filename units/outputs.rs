// Unit U-outputs: OutputManager::is_generated_file — the deletion predicate of cleanup_old_files (C16)
#![feature(allocator_api)]
#![feature(pattern)]
#![allow(unused_imports, unused_variables, dead_code, unused_mut)]
use vstd::prelude::*;
use vstd::std_specs::hash::*;
use vstd::std_specs::iter::IteratorSpec;
use std::collections::{HashMap, HashSet};
use std::alloc::Allocator;
use std::path::PathBuf;

//@ INCLUDE prelude/base.rs
//@ INCLUDE prelude/strpat.rs
use vpre::*;
use vstr::*;

verus! {

broadcast use {vstd::std_specs::hash::group_hash_axioms, vpre::group_string_keys, vstr::axiom_pat_char, vstr::axiom_pat_str, vstr::axiom_pat_char_not_str};

#[verifier::external_type_specification]
#[verifier::external_body]
pub struct ExPathBuf(std::path::PathBuf);

//@ EXTRACT-TYPE file=src/build/output_manager.rs struct=OutputManager

/// C16: "the tool's reserved generated names"
pub open spec fn reserved(f: Seq<char>) -> bool {
    f == "types.ts"@ || f == "types.d.ts"@ || f == "commands.ts"@ || f == "commands.d.ts"@
    || f == "events.ts"@ || f == "events.d.ts"@ || f == "index.ts"@ || f == "index.d.ts"@
    || f == "schemas.ts"@ || f == "schemas.d.ts"@ || f == "models.ts"@ || f == "models.d.ts"@
    || f == "bindings.ts"@ || f == "bindings.d.ts"@
    || f == ".typecache"@ || f == "dependency-graph.txt"@ || f == "dependency-graph.dot"@
    || has_prefix(f, "generated_"@) || has_infix(f, "_generated"@)
}

impl OutputManager {

pub closed spec fn managed(&self) -> Set<String> { self.managed_files@ }

//@ EXTRACT-FN file=src/build/output_manager.rs in="impl OutputManager" fn=is_generated_file props=C16
//@ RETURNS r
//@ CONTRACT
//@|    ensures
//@|        r ==> reserved(filename@) || self.managed().contains(string_of(filename@)),
//@ END

//@ EXTRACT-FN file=src/build/output_manager.rs in="impl OutputManager" fn=register_managed_file props=C16
//@ CONTRACT
//@|    ensures
//@|        final(self).managed() == old(self).managed().insert(string_of(filename@)),
//@ END

}

//@ AUTO-FREE-FNS
} // verus!
fn main() {}
