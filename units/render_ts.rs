// Unit U-render-ts: TypeScriptVisitor, devirtualised (D3): the methods of
// `impl TypeVisitor for TypeScriptVisitor` plus the default methods of `trait TypeVisitor`
// it does not override, in one inherent impl.   Properties: C05 (render half), C18, C01(ii)
#![feature(allocator_api)]
#![feature(slice_concat_trait)]
#![allow(unused_imports, unused_variables, dead_code, unused_mut)]
use vstd::prelude::*;
use vstd::std_specs::hash::*;
use vstd::std_specs::iter::IteratorSpec;
use std::collections::{HashMap, HashSet};
use std::alloc::Allocator;
use std::path::PathBuf;

//@ INCLUDE prelude/base.rs
//@ INCLUDE prelude/fmt.rs
//@ INCLUDE prelude/join.rs
use vpre::*;
use vfmt::*;
use vjoin::*;

verus! {

broadcast use {vstd::std_specs::hash::group_hash_axioms, vpre::group_string_keys, vfmt::group_disp, vjoin::axiom_join_string};

//@ FORMAT-MACRO

//@ INCLUDE units/inc/models.rs
//@ EXTRACT-TYPE file=src/interface/config.rs struct=GenerateConfig
//@ EXTRACT-TYPE file=src/generators/ts/type_visitor.rs struct=TypeScriptVisitor

//@ INCLUDE specs/tsty.rs
//@ INCLUDE specs/customs.rs
//@ INCLUDE specs/tsty_lemmas.rs

impl<'a> TypeScriptVisitor<'a> {

pub closed spec fn mappings(&self) -> Mappings {
    match self.config {
        Some(c) => match c.type_mappings { Some(m) => m@, None => Map::<String, String>::empty() },
        None => Map::<String, String>::empty(),
    }
}

//@ EXTRACT-FN file=src/generators/ts/type_visitor.rs in="impl<'a> TypeVisitor for TypeScriptVisitor<'a>" fn=get_config props=C05,C18
//@ RETURNS r
//@ CONTRACT
//@|    ensures r == self.config,
//@ END

//@ EXTRACT-FN file=src/generators/ts/type_visitor.rs in="impl<'a> TypeVisitor for TypeScriptVisitor<'a>" fn=visit_primitive props=C05
//@ RETURNS r
//@ CONTRACT
//@|    ensures r@ == type_name@,
//@ END

//@ EXTRACT-FN file=src/generators/base/type_visitor.rs in="trait TypeVisitor" fn=visit_type props=C05,C18
//@ RETURNS r
//@ CONTRACT
//@|    ensures r@ == pp(den(self.mappings(), *structure)),
//@|    decreases *structure, 1int,
//@ END

//@ EXTRACT-FN file=src/generators/base/type_visitor.rs in="trait TypeVisitor" fn=visit_array props=C05
//@ RETURNS r
//@ CONTRACT
//@|    ensures
//@|        !is_union(den(self.mappings(), *inner)) ==> r@ == pp(TsTy::Arr(Box::new(den(self.mappings(), *inner)))),
//@|        is_union(den(self.mappings(), *inner)) ==> r@ == pp(TsTy::Arr(Box::new(den(self.mappings(), *inner)))),
//@|    decreases *inner, 2int,
//@ END

//@ EXTRACT-FN file=src/generators/base/type_visitor.rs in="trait TypeVisitor" fn=visit_set props=C05
//@ RETURNS r
//@ CONTRACT
//@|    ensures
//@|        !is_union(den(self.mappings(), *inner)) ==> r@ == pp(TsTy::Arr(Box::new(den(self.mappings(), *inner)))),
//@|        is_union(den(self.mappings(), *inner)) ==> r@ == pp(TsTy::Arr(Box::new(den(self.mappings(), *inner)))),
//@|    decreases *inner, 2int,
//@ END

//@ EXTRACT-FN file=src/generators/base/type_visitor.rs in="trait TypeVisitor" fn=visit_map props=C05
//@ RETURNS r
//@ CONTRACT
//@|    ensures r@ == pp(TsTy::Rec(Box::new(den(self.mappings(), *key)), Box::new(den(self.mappings(), *value)))),
//@|    decreases (TypeStructure::Map { key: Box::new(*key), value: Box::new(*value) }), 0int,
//@ FIRST
//@|    proof {
//@|        let m0 = TypeStructure::Map { key: Box::new(*key), value: Box::new(*value) };
//@|        assert(*m0->key == *key && *m0->value == *value);
//@|        assert(decreases_to!(m0 => *m0->key));
//@|        assert(decreases_to!(m0 => *m0->value));
//@|    }
//@ END

//@ EXTRACT-FN file=src/generators/base/type_visitor.rs in="trait TypeVisitor" fn=visit_optional props=C05
//@ RETURNS r
//@ CONTRACT
//@|    ensures r@ == pp(TsTy::Nullable(Box::new(den(self.mappings(), *inner)))),
//@|    decreases *inner, 2int,
//@ END

//@ EXTRACT-FN file=src/generators/base/type_visitor.rs in="trait TypeVisitor" fn=visit_result props=C05
//@ RETURNS r
//@ CONTRACT
//@|    ensures r@ == pp(den(self.mappings(), *inner)),
//@|    decreases *inner, 2int,
//@ END

//@ EXTRACT-FN file=src/generators/base/type_visitor.rs in="trait TypeVisitor" fn=visit_tuple props=C05
//@ RETURNS r
//@ CONTRACT
//@|    ensures r@ == pp(den_tuple(self.mappings(), types@)),
//@|    decreases types@, 2int,
//@ CLOSURE 1
//@| |t: &TypeStructure| -> (s: String) requires types@.contains(*t) ensures s@ == pp(den(self.mappings(), *t))
//@ AFTER `let type_strs: Vec<String> = types.iter().map(|t| self.visit_type(t)).collect();`
//@|    proof {
//@|        lemma_join_is_pp_list(self.mappings(), types@, type_strs@, types@.len() as int);
//@|        assert(types@.take(types@.len() as int) =~= types@);
//@|        assert(type_strs@.take(types@.len() as int) =~= type_strs@);
//@|    }
//@ END

//@ EXTRACT-FN file=src/generators/base/type_visitor.rs in="trait TypeVisitor" fn=visit_custom props=C05,C18
//@ RETURNS r
//@ CONTRACT
//@|    ensures r@ == pp(den_custom(self.mappings(), string_of(name@))),
//@ END

//@ EXTRACT-FN file=src/generators/base/type_visitor.rs in="trait TypeVisitor" fn=visit_type_for_interface props=C05,C18
//@ RETURNS r
//@ CONTRACT
//@|    ensures r@ == pp(den(self.mappings(), *structure)),
//@ END

}

//@ AUTO-FREE-FNS
} // verus!
fn main() {}
