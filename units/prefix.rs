// Unit U-prefix: add_types_prefix — the only Rust function between a rendered TypeScript type and
// its `types.`-qualified form in commands.ts / events.ts (C02)
#![feature(allocator_api)]
#![feature(slice_concat_trait)]
#![feature(pattern)]
#![allow(unused_imports, unused_variables, dead_code, unused_mut)]
use vstd::prelude::*;
use vstd::std_specs::hash::*;
use std::collections::{HashMap, HashSet};
use std::alloc::Allocator;

//@ INCLUDE prelude/base.rs
//@ INCLUDE prelude/fmt.rs
//@ INCLUDE prelude/strpat.rs
use vpre::*;
use vfmt::*;
use vstr::*;

verus! {

broadcast use {vstd::std_specs::hash::group_hash_axioms, vpre::group_string_keys, vfmt::group_disp, vstr::axiom_pat_char, vstr::axiom_pat_str, vstr::axiom_pat_char_not_str};

//@ FORMAT-MACRO

// ------------------------------------------------------------------ specification (from C02)
pub open spec fn ascii_alnum(c: char) -> bool {
    ('a' <= c && c <= 'z') || ('A' <= c && c <= 'Z') || ('0' <= c && c <= '9')
}
pub open spec fn ascii_digit(c: char) -> bool { '0' <= c && c <= '9' }
pub open spec fn name_char(c: char) -> bool { ascii_alnum(c) || c == '_' || c == '$' }

/// a TypeScript type name as the visitors emit it for a project type or a built-in (ASCII identifiers)
pub open spec fn ts_name(s: Seq<char>) -> bool {
    s.len() > 0 && !ascii_digit(s[0]) && forall|i: int| 0 <= i < s.len() ==> name_char(#[trigger] s[i])
}

/// names that resolve without the `types` namespace
pub open spec fn builtin(s: Seq<char>) -> bool {
    s == "void"@ || s == "string"@ || s == "number"@ || s == "boolean"@
    || s == "any"@ || s == "unknown"@ || s == "null"@ || s == "undefined"@
}

/// the built-ins the visitors can put under `[]`
pub open spec fn builtin_elem(s: Seq<char>) -> bool {
    s == "string"@ || s == "number"@ || s == "boolean"@ || s == "void"@
}

/// C02: a name inside commands.ts / events.ts resolves: built-ins as they are, every other name through `types.`
pub open spec fn qname(n: Seq<char>) -> Seq<char> { if builtin(n) { n } else { "types."@ + n } }

pub open spec fn brackets(k: nat) -> Seq<char>
    decreases k
{
    if k == 0 { Seq::<char>::empty() } else { brackets((k - 1) as nat) + "[]"@ }
}

proof fn lemma_lits()
    ensures
        "[]"@ == seq!['[', ']'], " | null"@ == seq![' ', '|', ' ', 'n', 'u', 'l', 'l'],
        " | undefined"@ == seq![' ', '|', ' ', 'u', 'n', 'd', 'e', 'f', 'i', 'n', 'e', 'd'],
        "types."@ == seq!['t', 'y', 'p', 'e', 's', '.'], "Record<"@ == seq!['R', 'e', 'c', 'o', 'r', 'd', '<'], "Map<"@ == seq!['M', 'a', 'p', '<'],
        "void"@ == seq!['v', 'o', 'i', 'd'], "string"@ == seq!['s', 't', 'r', 'i', 'n', 'g'], "number"@ == seq!['n', 'u', 'm', 'b', 'e', 'r'],
        "boolean"@ == seq!['b', 'o', 'o', 'l', 'e', 'a', 'n'], "any"@ == seq!['a', 'n', 'y'], "unknown"@ == seq!['u', 'n', 'k', 'n', 'o', 'w', 'n'],
        "null"@ == seq!['n', 'u', 'l', 'l'], "undefined"@ == seq!['u', 'n', 'd', 'e', 'f', 'i', 'n', 'e', 'd'],
{
    reveal_strlit("[]"); reveal_strlit(" | null"); reveal_strlit(" | undefined"); reveal_strlit("types.");
    reveal_strlit("Record<"); reveal_strlit("Map<"); reveal_strlit("void"); reveal_strlit("string"); reveal_strlit("number");
    reveal_strlit("boolean"); reveal_strlit("any"); reveal_strlit("unknown"); reveal_strlit("null"); reveal_strlit("undefined");
    assert("[]"@ =~= seq!['[', ']']);
    assert(" | null"@ =~= seq![' ', '|', ' ', 'n', 'u', 'l', 'l']);
    assert(" | undefined"@ =~= seq![' ', '|', ' ', 'u', 'n', 'd', 'e', 'f', 'i', 'n', 'e', 'd']);
    assert("types."@ =~= seq!['t', 'y', 'p', 'e', 's', '.']);
    assert("Record<"@ =~= seq!['R', 'e', 'c', 'o', 'r', 'd', '<']);
    assert("Map<"@ =~= seq!['M', 'a', 'p', '<']);
    assert("void"@ =~= seq!['v', 'o', 'i', 'd']);
    assert("string"@ =~= seq!['s', 't', 'r', 'i', 'n', 'g']);
    assert("number"@ =~= seq!['n', 'u', 'm', 'b', 'e', 'r']);
    assert("boolean"@ =~= seq!['b', 'o', 'o', 'l', 'e', 'a', 'n']);
    assert("any"@ =~= seq!['a', 'n', 'y']);
    assert("unknown"@ =~= seq!['u', 'n', 'k', 'n', 'o', 'w', 'n']);
    assert("null"@ =~= seq!['n', 'u', 'l', 'l']);
    assert("undefined"@ =~= seq!['u', 'n', 'd', 'e', 'f', 'i', 'n', 'e', 'd']);
}

/// a name contains none of the structural characters the function keys on
proof fn lemma_name_is_plain(n: Seq<char>)
    requires ts_name(n),
    ensures
        !has_suffix(n, "[]"@), !has_suffix(n, " | null"@), !has_suffix(n, " | undefined"@),
        !has_prefix(n, "Record<"@), !has_prefix(n, "Map<"@), !has_prefix(n, "types."@),
        n[0] != '[',
{
    lemma_lits();
    if has_suffix(n, "[]"@) { assert(n.subrange(n.len() - 2, n.len() as int)[1] == ']'); assert(n[n.len() - 1] == ']'); }
    if has_suffix(n, " | null"@) { assert(n.subrange(n.len() - 7, n.len() as int)[0] == ' '); assert(n[n.len() - 7] == ' '); }
    if has_suffix(n, " | undefined"@) { assert(n.subrange(n.len() - 12, n.len() as int)[0] == ' '); assert(n[n.len() - 12] == ' '); }
    if has_prefix(n, "Record<"@) { assert(n.subrange(0, 7)[6] == '<'); assert(n[6] == '<'); }
    if has_prefix(n, "Map<"@) { assert(n.subrange(0, 4)[3] == '<'); assert(n[3] == '<'); }
    if has_prefix(n, "types."@) { assert(n.subrange(0, 6)[5] == '.'); assert(n[5] == '.'); }
}

/// characters of `n[][]..`: name characters and brackets only
pub open spec fn arr_chars(s: Seq<char>) -> bool {
    forall|i: int| 0 <= i < s.len() ==> (name_char(#[trigger] s[i]) || s[i] == '[' || s[i] == ']')
}

proof fn lemma_brackets(k: nat)
    ensures
        brackets(k).len() == 2 * k,
        forall|i: int| 0 <= i < brackets(k).len() ==> (#[trigger] brackets(k)[i] == '[' || brackets(k)[i] == ']'),
        k > 0 ==> brackets(k) == brackets((k - 1) as nat) + "[]"@,
    decreases k,
{
    lemma_lits();
    if k > 0 {
        lemma_brackets((k - 1) as nat);
        let b = brackets((k - 1) as nat);
        assert(brackets(k) == b + "[]"@);
        assert forall|i: int| 0 <= i < brackets(k).len() implies (#[trigger] brackets(k)[i] == '[' || brackets(k)[i] == ']') by {
            if i < b.len() { assert(brackets(k)[i] == b[i]); } else { assert(brackets(k)[i] == "[]"@[i - b.len()]); }
        }
    } else {
        assert(brackets(0).len() == 0);
    }
}

/// shape facts about `n ++ [] * k` for a name n
proof fn lemma_array_shape(n: Seq<char>, k: nat)
    requires ts_name(n),
    ensures
        arr_chars(n + brackets(k)),
        (n + brackets(k)).len() == n.len() + 2 * k,
        (n + brackets(k))[0] == n[0],
        k > 0 ==> has_suffix(n + brackets(k), "[]"@)
            && (n + brackets(k)).subrange(0, (n + brackets(k)).len() - 2) == n + brackets((k - 1) as nat)
            && !builtin(n + brackets(k)),
        k == 0 ==> n + brackets(k) == n,
        !has_suffix(n + brackets(k), " | null"@), !has_suffix(n + brackets(k), " | undefined"@),
        !has_prefix(n + brackets(k), "Record<"@), !has_prefix(n + brackets(k), "Map<"@),
{
    lemma_lits();
    lemma_brackets(k);
    let s = n + brackets(k);
    assert forall|i: int| 0 <= i < s.len() implies (name_char(#[trigger] s[i]) || s[i] == '[' || s[i] == ']') by {
        if i < n.len() { assert(s[i] == n[i]); } else { assert(s[i] == brackets(k)[i - n.len()]); }
    }
    if k > 0 {
        let b = brackets((k - 1) as nat);
        assert(s =~= (n + b) + "[]"@);
        assert(s.subrange(s.len() - 2, s.len() as int) =~= "[]"@);
        assert(s.subrange(0, s.len() - 2) =~= n + b);
        assert(s[s.len() - 1] == ']');
        if builtin(s) { assert(s.last() == ']'); }
    } else {
        assert(brackets(0) =~= Seq::<char>::empty());
        assert(s =~= n);
    }
    if has_suffix(s, " | null"@) { assert(s.subrange(s.len() - 7, s.len() as int)[0] == ' '); assert(s[s.len() - 7] == ' '); }
    if has_suffix(s, " | undefined"@) { assert(s.subrange(s.len() - 12, s.len() as int)[0] == ' '); assert(s[s.len() - 12] == ' '); }
    if has_prefix(s, "Record<"@) { assert(s.subrange(0, 7)[6] == '<'); assert(s[6] == '<'); }
    if has_prefix(s, "Map<"@) { assert(s.subrange(0, 4)[3] == '<'); assert(s[3] == '<'); }
}

/// `x ++ " | null"` (x = name with brackets): not a builtin, no [] suffix, no Record</Map< prefix
proof fn lemma_union_shape(x: Seq<char>, suffix: Seq<char>)
    requires arr_chars(x), x.len() > 0, suffix == " | null"@ || suffix == " | undefined"@,
    ensures
        !builtin(x + suffix), !has_suffix(x + suffix, "[]"@),
        !has_prefix(x + suffix, "Record<"@), !has_prefix(x + suffix, "Map<"@),
        has_suffix(x + suffix, suffix),
        (x + suffix).subrange(0, (x + suffix).len() - suffix.len()) == x,
        suffix == " | undefined"@ ==> !has_suffix(x + suffix, " | null"@),
{
    lemma_lits();
    let s = x + suffix;
    assert(s.subrange(s.len() - suffix.len(), s.len() as int) =~= suffix);
    assert(s.subrange(0, s.len() - suffix.len()) =~= x);
    assert(s[x.len() as int] == ' ') by { assert(s[x.len() as int] == suffix[0]); }
    assert forall|i: int| 0 <= i < s.len() implies s[i] != '<' by {
        if i < x.len() { assert(s[i] == x[i]); } else { assert(s[i] == suffix[i - x.len()]); }
    }
    if builtin(s) { assert(s[x.len() as int] == ' '); }
    if has_suffix(s, "[]"@) { assert(s.subrange(s.len() - 2, s.len() as int)[1] == ']'); assert(s[s.len() - 1] == ']'); assert(s[s.len() - 1] == suffix[suffix.len() - 1]); }
    if has_prefix(s, "Record<"@) { assert(s.subrange(0, 7)[6] == '<'); assert(s[6] == '<'); }
    if has_prefix(s, "Map<"@) { assert(s.subrange(0, 4)[3] == '<'); assert(s[3] == '<'); }
    if suffix == " | undefined"@ && has_suffix(s, " | null"@) {
        assert(s.subrange(s.len() - 7, s.len() as int)[6] == 'l');
        assert(s[s.len() - 1] == 'l');
        assert(s[s.len() - 1] == suffix[11]);
    }
}

/// C02 for the shapes the visitors emit around a single name: `N`, `N[]..[]`, and those ` | null` / ` | undefined`
pub open spec fn qualifies(s: Seq<char>, r: Seq<char>) -> bool {
    &&& forall|n: Seq<char>, k: nat| #![trigger n + brackets(k)] ts_name(n) && s == n + brackets(k) ==> r == qname(n) + brackets(k)
    &&& forall|n: Seq<char>, k: nat| #![trigger n + brackets(k)] ts_name(n) && s == n + brackets(k) + " | null"@ ==> r == qname(n) + brackets(k) + " | null"@
    &&& forall|n: Seq<char>, k: nat| #![trigger n + brackets(k)] ts_name(n) && s == n + brackets(k) + " | undefined"@ ==> r == qname(n) + brackets(k) + " | undefined"@
}

/// s is none of the shapes `qualifies` speaks about
pub open spec fn no_shape(s: Seq<char>) -> bool {
    &&& forall|n: Seq<char>, k: nat| #![trigger n + brackets(k)] ts_name(n) ==> s != n + brackets(k)
    &&& forall|n: Seq<char>, k: nat| #![trigger n + brackets(k)] ts_name(n) ==> s != n + brackets(k) + " | null"@
    &&& forall|n: Seq<char>, k: nat| #![trigger n + brackets(k)] ts_name(n) ==> s != n + brackets(k) + " | undefined"@
}

proof fn lemma_exit_builtin(s: Seq<char>)
    requires builtin(s),
    ensures qualifies(s, s),
{
    lemma_lits();
    assert forall|n: Seq<char>, k: nat| #![trigger n + brackets(k)] ts_name(n) && s == n + brackets(k) implies s == qname(n) + brackets(k) by {
        lemma_array_shape(n, k);
        assert(k == 0);
        assert(n == s);
        assert(brackets(0) =~= Seq::<char>::empty());
        assert(qname(n) + brackets(k) =~= s);
    }
    assert forall|n: Seq<char>, k: nat| #![trigger n + brackets(k)] ts_name(n) && s == n + brackets(k) + " | null"@ implies s == qname(n) + brackets(k) + " | null"@ by {
        lemma_array_shape(n, k);
        lemma_union_shape(n + brackets(k), " | null"@);
    }
    assert forall|n: Seq<char>, k: nat| #![trigger n + brackets(k)] ts_name(n) && s == n + brackets(k) + " | undefined"@ implies s == qname(n) + brackets(k) + " | undefined"@ by {
        lemma_array_shape(n, k);
        lemma_union_shape(n + brackets(k), " | undefined"@);
    }
}

proof fn lemma_exit_array(s: Seq<char>, base: Seq<char>, rb: Seq<char>)
    requires has_suffix(s, "[]"@), base == s.subrange(0, s.len() - 2), qualifies(base, rb),
    ensures qualifies(s, rb + "[]"@),
{
    lemma_lits();
    let r = rb + "[]"@;
    assert forall|n: Seq<char>, k: nat| #![trigger n + brackets(k)] ts_name(n) && s == n + brackets(k) implies r == qname(n) + brackets(k) by {
        lemma_array_shape(n, k);
        if k == 0 { lemma_name_is_plain(n); assert(false); }
        let k1 = (k - 1) as nat;
        assert(base == n + brackets(k1));
        assert(rb == qname(n) + brackets(k1));
        lemma_brackets(k);
        assert(r =~= qname(n) + brackets(k));
    }
    assert forall|n: Seq<char>, k: nat| #![trigger n + brackets(k)] ts_name(n) && s == n + brackets(k) + " | null"@ implies r == qname(n) + brackets(k) + " | null"@ by {
        lemma_array_shape(n, k);
        lemma_union_shape(n + brackets(k), " | null"@);
    }
    assert forall|n: Seq<char>, k: nat| #![trigger n + brackets(k)] ts_name(n) && s == n + brackets(k) + " | undefined"@ implies r == qname(n) + brackets(k) + " | undefined"@ by {
        lemma_array_shape(n, k);
        lemma_union_shape(n + brackets(k), " | undefined"@);
    }
}

proof fn lemma_exit_union(s: Seq<char>, suffix: Seq<char>, base: Seq<char>, rb: Seq<char>)
    requires
        suffix == " | null"@ || suffix == " | undefined"@,
        has_suffix(s, suffix), base == s.subrange(0, s.len() - suffix.len()), qualifies(base, rb),
        suffix == " | undefined"@ ==> !has_suffix(s, " | null"@),
    ensures qualifies(s, rb + suffix),
{
    lemma_lits();
    let r = rb + suffix;
    assert forall|n: Seq<char>, k: nat| #![trigger n + brackets(k)] ts_name(n) && s == n + brackets(k) implies r == qname(n) + brackets(k) by {
        lemma_array_shape(n, k);
    }
    assert forall|n: Seq<char>, k: nat| #![trigger n + brackets(k)] ts_name(n) && s == n + brackets(k) + " | null"@ implies r == qname(n) + brackets(k) + " | null"@ by {
        lemma_array_shape(n, k);
        lemma_union_shape(n + brackets(k), " | null"@);
        if suffix == " | null"@ {
            assert(base == n + brackets(k));
            assert(rb == qname(n) + brackets(k));
        }
    }
    assert forall|n: Seq<char>, k: nat| #![trigger n + brackets(k)] ts_name(n) && s == n + brackets(k) + " | undefined"@ implies r == qname(n) + brackets(k) + " | undefined"@ by {
        lemma_array_shape(n, k);
        lemma_union_shape(n + brackets(k), " | undefined"@);
        if suffix == " | undefined"@ {
            assert(base == n + brackets(k));
            assert(rb == qname(n) + brackets(k));
        } else {
            // s ends with " | null" but also with " | undefined": last characters differ
            assert(s[s.len() - 1] == " | undefined"@[11]);
            assert(s.subrange(s.len() - 7, s.len() as int)[6] == 'l');
        }
    }
}

/// exits that return the text unchanged because it is none of the shapes (Record<, Map<, [..], types.)
proof fn lemma_exit_other(s: Seq<char>, r: Seq<char>)
    requires has_prefix(s, "Record<"@) || has_prefix(s, "Map<"@) || has_prefix(s, "types."@) || (s.len() > 0 && s[0] == '['),
    ensures qualifies(s, r),
{
    lemma_lits();
    assert forall|n: Seq<char>, k: nat| #![trigger n + brackets(k)] ts_name(n) implies
        s != n + brackets(k) && s != n + brackets(k) + " | null"@ && s != n + brackets(k) + " | undefined"@ by {
        lemma_array_shape(n, k);
        let x = n + brackets(k);
        lemma_union_shape(x, " | null"@);
        lemma_union_shape(x, " | undefined"@);
        // "types." : position 5 is '.', which is neither a name character, a bracket nor part of the suffixes
        if has_prefix(s, "types."@) {
            assert(s.subrange(0, 6)[5] == '.');
            assert(s[5] == '.');
            if s == x { assert(x[5] == '.'); }
            if s == x + " | null"@ { if 5 < x.len() { assert((x + " | null"@)[5] == x[5]); } else { assert((x + " | null"@)[5] == " | null"@[5 - x.len()]); } }
            if s == x + " | undefined"@ { if 5 < x.len() { assert((x + " | undefined"@)[5] == x[5]); } else { assert((x + " | undefined"@)[5] == " | undefined"@[5 - x.len()]); } }
        }
        if s.len() > 0 && s[0] == '[' {
            assert(x[0] == n[0]);
            assert((x + " | null"@)[0] == x[0]);
            assert((x + " | undefined"@)[0] == x[0]);
        }
    }
}

proof fn lemma_exit_custom(s: Seq<char>)
    requires !builtin(s), !has_suffix(s, "[]"@), !has_suffix(s, " | null"@), !has_suffix(s, " | undefined"@),
    ensures qualifies(s, "types."@ + s),
{
    lemma_lits();
    let r = "types."@ + s;
    assert forall|n: Seq<char>, k: nat| #![trigger n + brackets(k)] ts_name(n) && s == n + brackets(k) implies r == qname(n) + brackets(k) by {
        lemma_array_shape(n, k);
        assert(k == 0);
        assert(brackets(0) =~= Seq::<char>::empty());
        assert(qname(n) + brackets(k) =~= r);
    }
    assert forall|n: Seq<char>, k: nat| #![trigger n + brackets(k)] ts_name(n) && s == n + brackets(k) + " | null"@ implies r == qname(n) + brackets(k) + " | null"@ by {
        lemma_array_shape(n, k);
        lemma_union_shape(n + brackets(k), " | null"@);
    }
    assert forall|n: Seq<char>, k: nat| #![trigger n + brackets(k)] ts_name(n) && s == n + brackets(k) + " | undefined"@ implies r == qname(n) + brackets(k) + " | undefined"@ by {
        lemma_array_shape(n, k);
        lemma_union_shape(n + brackets(k), " | undefined"@);
    }
}

//@ EXTRACT-FN file=src/generators/base/templates.rs fn=add_types_prefix props=C02,C05
//@ RETURNS r
//@ CONTRACT
//@|    ensures
//@|        builtin(ts_type@) ==> r@ == ts_type@,
//@|        qualifies(ts_type@, r@),
//@|        forall|a: Seq<char>, b: Seq<char>| #![trigger ts_name(a), ts_name(b)] ts_name(a) && ts_name(b) && ts_type@ == "Record<"@ + a + ", "@ + b + ">"@ ==> r@ == "Record<"@ + qname(a) + ", "@ + qname(b) + ">"@,
//@|        forall|a: Seq<char>, b: Seq<char>| #![trigger ts_name(a), ts_name(b)] ts_name(a) && ts_name(b) && ts_type@ == "["@ + a + ", "@ + b + "]"@ ==> r@ == "["@ + qname(a) + ", "@ + qname(b) + "]"@,
//@|    decreases ts_type@.len(),
//@ FIRST
//@|    proof { lemma_lits(); }
//@ BEFORE `return ts_type.to_string();` #1
//@|    proof { lemma_exit_builtin(ts_type@); }
//@ BEFORE `return format!("{}[]", add_types_prefix(base_type));`
//@|    proof {
//@|        assert forall|rb: Seq<char>| #[trigger] qualifies(base_type@, rb) implies qualifies(ts_type@, rb + "[]"@) by {
//@|            lemma_exit_array(ts_type@, base_type@, rb);
//@|        }
//@|    }
//@ BEFORE `return format!("{} | null", add_types_prefix(base));`
//@|    proof {
//@|        assert forall|rb: Seq<char>| #[trigger] qualifies(base@, rb) implies qualifies(ts_type@, rb + " | null"@) by {
//@|            lemma_exit_union(ts_type@, " | null"@, base@, rb);
//@|        }
//@|    }
//@ BEFORE `return format!("{} | undefined", add_types_prefix(base));`
//@|    proof {
//@|        assert forall|rb: Seq<char>| #[trigger] qualifies(base@, rb) implies qualifies(ts_type@, rb + " | undefined"@) by {
//@|            lemma_exit_union(ts_type@, " | undefined"@, base@, rb);
//@|        }
//@|    }
//@ BEFORE `if ts_type.starts_with("types.") {`
//@|    proof {
//@|        if has_prefix(ts_type@, "types."@) { lemma_exit_other(ts_type@, ts_type@); } else { lemma_exit_custom(ts_type@); }
//@|    }
//@ BEFORE `return ts_type.to_string();` #2
//@|    proof { lemma_exit_other(ts_type@, ts_type@); }
//@ BEFORE `return ts_type.to_string();` #3
//@|    proof { lemma_exit_other(ts_type@, ts_type@); }
//@ END

//@ AUTO-FREE-FNS
//@ PROPS C02
/// C02: what `qualifies` means for the commonest shapes, spelled out
pub proof fn lemma_C02_names_resolve_through_the_types_namespace(n: Seq<char>, r0: Seq<char>, r1: Seq<char>, r2: Seq<char>, r3: Seq<char>)
    requires
        ts_name(n), !builtin(n),
        qualifies(n, r0), qualifies(n + "[]"@, r1), qualifies(n + "[]"@ + "[]"@, r2), qualifies(n + "[]"@ + " | null"@, r3),
    ensures
        r0 == "types."@ + n,
        r1 == "types."@ + n + "[]"@,
        r2 == "types."@ + n + "[]"@ + "[]"@,
        r3 == "types."@ + n + "[]"@ + " | null"@,
{
    lemma_lits();
    assert(brackets(0) =~= Seq::<char>::empty());
    assert(brackets(1) =~= "[]"@) by { assert(brackets(1) == brackets(0) + "[]"@); }
    assert(brackets(2) =~= "[]"@ + "[]"@) by { assert(brackets(2) == brackets(1) + "[]"@); }
    assert(n + brackets(0) =~= n);
    assert(n + brackets(1) =~= n + "[]"@);
    assert(n + brackets(2) =~= n + "[]"@ + "[]"@);
    assert(qname(n) + brackets(0) =~= "types."@ + n);
    assert(qname(n) + brackets(1) =~= "types."@ + n + "[]"@);
    assert(qname(n) + brackets(2) =~= "types."@ + n + "[]"@ + "[]"@);
    assert(n + brackets(1) + " | null"@ =~= n + "[]"@ + " | null"@);
    assert(qname(n) + brackets(1) + " | null"@ =~= "types."@ + n + "[]"@ + " | null"@);
}

} // verus!
fn main() {}
