// Unit U-prefix: add_types_prefix — the only Rust function between a rendered TypeScript type and
// its `types.`-qualified form in commands.ts / events.ts (C02)
#![feature(allocator_api)]
#![feature(slice_concat_trait)]
#![feature(pattern)]
#![allow(unused_imports, unused_variables, dead_code, unused_mut)]
use vstd::prelude::*;
use vstd::std_specs::hash::*;
use std::collections::{HashMap, HashSet};
use std::alloc::Allocator;

//@ INCLUDE prelude/base.rs
//@ INCLUDE prelude/fmt.rs
//@ INCLUDE prelude/strpat.rs
use vpre::*;
use vfmt::*;
use vstr::*;

verus! {

broadcast use {vstd::std_specs::hash::group_hash_axioms, vpre::group_string_keys, vfmt::group_disp, vstr::axiom_pat_char, vstr::axiom_pat_str, vstr::axiom_pat_char_not_str};

//@ FORMAT-MACRO

// ------------------------------------------------------------------ specification (from C02)
pub open spec fn ascii_alnum(c: char) -> bool {
    ('a' <= c && c <= 'z') || ('A' <= c && c <= 'Z') || ('0' <= c && c <= '9')
}
pub open spec fn ascii_digit(c: char) -> bool { '0' <= c && c <= '9' }
pub open spec fn name_char(c: char) -> bool { ascii_alnum(c) || c == '_' || c == '$' }

/// a TypeScript type name as the visitors emit it for a project type or a built-in (ASCII identifiers)
pub open spec fn ts_name(s: Seq<char>) -> bool {
    s.len() > 0 && !ascii_digit(s[0]) && forall|i: int| 0 <= i < s.len() ==> name_char(#[trigger] s[i])
}

/// names that resolve without the `types` namespace
pub open spec fn builtin(s: Seq<char>) -> bool {
    s == "void"@ || s == "string"@ || s == "number"@ || s == "boolean"@
    || s == "any"@ || s == "unknown"@ || s == "null"@ || s == "undefined"@
}

/// the built-ins the visitors can put under `[]`
pub open spec fn builtin_elem(s: Seq<char>) -> bool {
    s == "string"@ || s == "number"@ || s == "boolean"@ || s == "void"@
}

/// C02: a name inside commands.ts / events.ts resolves: built-ins as they are, every other name through `types.`
pub open spec fn qname(n: Seq<char>) -> Seq<char> { if builtin(n) { n } else { "types."@ + n } }

pub open spec fn brackets(k: nat) -> Seq<char>
    decreases k
{
    if k == 0 { Seq::<char>::empty() } else { brackets((k - 1) as nat) + "[]"@ }
}

proof fn lemma_lits()
    ensures
        "[]"@ == seq!['[', ']'], " | null"@ == seq![' ', '|', ' ', 'n', 'u', 'l', 'l'],
        " | undefined"@ == seq![' ', '|', ' ', 'u', 'n', 'd', 'e', 'f', 'i', 'n', 'e', 'd'],
        "types."@ == seq!['t', 'y', 'p', 'e', 's', '.'], "Record<"@ == seq!['R', 'e', 'c', 'o', 'r', 'd', '<'], "Map<"@ == seq!['M', 'a', 'p', '<'],
        "void"@ == seq!['v', 'o', 'i', 'd'], "string"@ == seq!['s', 't', 'r', 'i', 'n', 'g'], "number"@ == seq!['n', 'u', 'm', 'b', 'e', 'r'],
        "boolean"@ == seq!['b', 'o', 'o', 'l', 'e', 'a', 'n'], "any"@ == seq!['a', 'n', 'y'], "unknown"@ == seq!['u', 'n', 'k', 'n', 'o', 'w', 'n'],
        "null"@ == seq!['n', 'u', 'l', 'l'], "undefined"@ == seq!['u', 'n', 'd', 'e', 'f', 'i', 'n', 'e', 'd'],
{
    reveal_strlit("[]"); reveal_strlit(" | null"); reveal_strlit(" | undefined"); reveal_strlit("types.");
    reveal_strlit("Record<"); reveal_strlit("Map<"); reveal_strlit("void"); reveal_strlit("string"); reveal_strlit("number");
    reveal_strlit("boolean"); reveal_strlit("any"); reveal_strlit("unknown"); reveal_strlit("null"); reveal_strlit("undefined");
    assert("[]"@ =~= seq!['[', ']']);
    assert(" | null"@ =~= seq![' ', '|', ' ', 'n', 'u', 'l', 'l']);
    assert(" | undefined"@ =~= seq![' ', '|', ' ', 'u', 'n', 'd', 'e', 'f', 'i', 'n', 'e', 'd']);
    assert("types."@ =~= seq!['t', 'y', 'p', 'e', 's', '.']);
    assert("Record<"@ =~= seq!['R', 'e', 'c', 'o', 'r', 'd', '<']);
    assert("Map<"@ =~= seq!['M', 'a', 'p', '<']);
    assert("void"@ =~= seq!['v', 'o', 'i', 'd']);
    assert("string"@ =~= seq!['s', 't', 'r', 'i', 'n', 'g']);
    assert("number"@ =~= seq!['n', 'u', 'm', 'b', 'e', 'r']);
    assert("boolean"@ =~= seq!['b', 'o', 'o', 'l', 'e', 'a', 'n']);
    assert("any"@ =~= seq!['a', 'n', 'y']);
    assert("unknown"@ =~= seq!['u', 'n', 'k', 'n', 'o', 'w', 'n']);
    assert("null"@ =~= seq!['n', 'u', 'l', 'l']);
    assert("undefined"@ =~= seq!['u', 'n', 'd', 'e', 'f', 'i', 'n', 'e', 'd']);
}

/// a name contains none of the structural characters the function keys on
proof fn lemma_name_is_plain(n: Seq<char>)
    requires ts_name(n),
    ensures
        !has_suffix(n, "[]"@), !has_suffix(n, " | null"@), !has_suffix(n, " | undefined"@),
        !has_prefix(n, "Record<"@), !has_prefix(n, "Map<"@), !has_prefix(n, "types."@),
        n[0] != '[',
{
    lemma_lits();
    if has_suffix(n, "[]"@) { assert(n.subrange(n.len() - 2, n.len() as int)[1] == ']'); assert(n[n.len() - 1] == ']'); }
    if has_suffix(n, " | null"@) { assert(n.subrange(n.len() - 7, n.len() as int)[0] == ' '); assert(n[n.len() - 7] == ' '); }
    if has_suffix(n, " | undefined"@) { assert(n.subrange(n.len() - 12, n.len() as int)[0] == ' '); assert(n[n.len() - 12] == ' '); }
    if has_prefix(n, "Record<"@) { assert(n.subrange(0, 7)[6] == '<'); assert(n[6] == '<'); }
    if has_prefix(n, "Map<"@) { assert(n.subrange(0, 4)[3] == '<'); assert(n[3] == '<'); }
    if has_prefix(n, "types."@) { assert(n.subrange(0, 6)[5] == '.'); assert(n[5] == '.'); }
}

//@ EXTRACT-FN file=src/generators/base/templates.rs fn=add_types_prefix props=C02
//@ RETURNS r
//@ CONTRACT
//@|    ensures
//@|        builtin(ts_type@) ==> r@ == ts_type@,
//@|        ts_name(ts_type@) ==> r@ == qname(ts_type@),
//@|        forall|n: Seq<char>| #![trigger ts_name(n)] ts_name(n) && (builtin_elem(n) || !builtin(n)) && ts_type@ == n + "[]"@ ==> r@ == qname(n) + "[]"@,
//@|        forall|n: Seq<char>| #![trigger ts_name(n)] ts_name(n) && (builtin_elem(n) || !builtin(n)) && ts_type@ == n + "[]"@ + "[]"@ ==> r@ == qname(n) + "[]"@ + "[]"@,
//@|        forall|n: Seq<char>| #![trigger ts_name(n)] ts_name(n) && ts_type@ == n + " | null"@ ==> r@ == qname(n) + " | null"@,
//@|        forall|n: Seq<char>| #![trigger ts_name(n)] ts_name(n) && (builtin_elem(n) || !builtin(n)) && ts_type@ == n + "[]"@ + " | null"@ ==> r@ == qname(n) + "[]"@ + " | null"@,
//@|    decreases ts_type@.len(),
//@ FIRST
//@|    proof { lemma_lits(); }
//@ END

//@ AUTO-FREE-FNS
} // verus!
fn main() {}
