pub mod vstr {
use vstd::prelude::*;
use std::str::pattern::Pattern;
verus! {
// ---- trusted prelude: str methods taking a Pattern, specified over the Seq<char> view ----
#[verifier::external_trait_specification]
pub trait ExPattern: Sized { type ExternalTraitSpecificationFor: Pattern; }

pub uninterp spec fn pat_is_char<P>(p: P) -> bool;
pub uninterp spec fn pat_char<P>(p: P) -> char;
pub broadcast axiom fn axiom_pat_char(c: char)
    ensures #![trigger pat_is_char::<char>(c)] #![trigger pat_char::<char>(c)]
            pat_is_char::<char>(c) && pat_char::<char>(c) == c;

/// every occurrence of the character `c` replaced by `to`, other characters kept, left to right
pub open spec fn replace_char(s: Seq<char>, c: char, to: Seq<char>) -> Seq<char>
    decreases s.len()
{
    if s.len() == 0 { Seq::<char>::empty() }
    else { replace_char(s.drop_last(), c, to) + (if s.last() == c { to } else { seq![s.last()] }) }
}

pub assume_specification<P: Pattern>[ str::replace::<P> ](s: &str, from: P, to: &str) -> (r: String)
    ensures pat_is_char(from) ==> r@ == replace_char(s@, pat_char(from), to@);
} // verus!
} // mod vstr
