pub mod vstr {
use vstd::prelude::*;
use std::str::pattern::Pattern;
verus! {
// ---- trusted prelude: str methods taking a Pattern, specified over the Seq<char> view ----
#[verifier::external_trait_specification]
pub trait ExPattern: Sized { type ExternalTraitSpecificationFor: Pattern; }

pub uninterp spec fn pat_is_char<P>(p: P) -> bool;
pub uninterp spec fn pat_char<P>(p: P) -> char;
pub broadcast axiom fn axiom_pat_char(c: char)
    ensures #![trigger pat_is_char::<char>(c)] #![trigger pat_char::<char>(c)]
            pat_is_char::<char>(c) && pat_char::<char>(c) == c;

/// every occurrence of the character `c` replaced by `to`, other characters kept, left to right
pub open spec fn replace_char(s: Seq<char>, c: char, to: Seq<char>) -> Seq<char>
    decreases s.len()
{
    if s.len() == 0 { Seq::<char>::empty() }
    else { replace_char(s.drop_last(), c, to) + (if s.last() == c { to } else { seq![s.last()] }) }
}

// &str patterns
pub uninterp spec fn pat_is_str<P>(p: P) -> bool;
pub uninterp spec fn pat_str<P>(p: P) -> Seq<char>;
pub broadcast axiom fn axiom_pat_str(p: &str)
    ensures #![trigger pat_is_str::<&str>(p)] #![trigger pat_str::<&str>(p)]
            pat_is_str::<&str>(p) && pat_str::<&str>(p) == p@ && !pat_is_char::<&str>(p);
pub broadcast axiom fn axiom_pat_char_not_str(c: char)
    ensures #[trigger] pat_is_str::<char>(c) == false;

// [char; N] patterns ("any of these characters")
pub uninterp spec fn pat_is_chars<P>(p: P) -> bool;
pub uninterp spec fn pat_chars<P>(p: P) -> Seq<char>;
pub broadcast axiom fn axiom_pat_chars<const N: usize>(a: [char; N])
    ensures #![trigger pat_is_chars::<[char; N]>(a)] #![trigger pat_chars::<[char; N]>(a)]
            pat_is_chars::<[char; N]>(a) && pat_chars::<[char; N]>(a) == a@ && !pat_is_char::<[char; N]>(a) && !pat_is_str::<[char; N]>(a);

pub open spec fn has_prefix(s: Seq<char>, p: Seq<char>) -> bool {
    p.len() <= s.len() && s.subrange(0, p.len() as int) == p
}
pub open spec fn has_suffix(s: Seq<char>, p: Seq<char>) -> bool {
    p.len() <= s.len() && s.subrange(s.len() - p.len(), s.len() as int) == p
}
pub open spec fn has_infix(s: Seq<char>, p: Seq<char>) -> bool {
    exists|i: int| 0 <= i && i + p.len() <= s.len() && #[trigger] s.subrange(i, i + p.len()) == p
}

pub assume_specification<P: Pattern>[ str::starts_with::<P> ](s: &str, pat: P) -> (r: bool)
    ensures
        pat_is_str(pat) ==> r == has_prefix(s@, pat_str(pat)),
        pat_is_char(pat) ==> r == (s@.len() > 0 && s@[0] == pat_char(pat)),
        pat_is_chars(pat) ==> r == (s@.len() > 0 && pat_chars(pat).contains(s@[0]));

pub assume_specification<P: Pattern>[ str::ends_with::<P> ](s: &str, pat: P) -> (r: bool)
    where for<'a> P::Searcher<'a>: std::str::pattern::ReverseSearcher<'a>
    ensures
        pat_is_str(pat) ==> r == has_suffix(s@, pat_str(pat)),
        pat_is_char(pat) ==> r == (s@.len() > 0 && s@.last() == pat_char(pat));

pub assume_specification<P: Pattern>[ str::contains::<P> ](s: &str, pat: P) -> (r: bool)
    ensures
        pat_is_str(pat) ==> r == has_infix(s@, pat_str(pat)),
        pat_is_char(pat) ==> r == s@.contains(pat_char(pat));

pub assume_specification<P: Pattern>[ str::strip_suffix::<P> ](s: &str, pat: P) -> (r: Option<&str>)
    where for<'a> P::Searcher<'a>: std::str::pattern::ReverseSearcher<'a>
    ensures
        pat_is_str(pat) && has_suffix(s@, pat_str(pat)) ==> r is Some && r->0@ == s@.subrange(0, s@.len() - pat_str(pat).len()),
        pat_is_str(pat) && !has_suffix(s@, pat_str(pat)) ==> r is None;

pub assume_specification<P: Pattern>[ str::strip_prefix::<P> ](s: &str, pat: P) -> (r: Option<&str>)
    ensures
        pat_is_str(pat) && has_prefix(s@, pat_str(pat)) ==> r is Some && r->0@ == s@.subrange(pat_str(pat).len() as int, s@.len() as int),
        pat_is_str(pat) && !has_prefix(s@, pat_str(pat)) ==> r is None;

// <[T]>::contains — ASSUMED for element types whose PartialEq is structural equality of the
// spec value (used with T = &str, where equal contents <==> equal values by axiom_str_ext)
pub assume_specification<T: std::cmp::PartialEq>[ <[T]>::contains ](v: &[T], x: &T) -> (r: bool)
    ensures r == v@.contains(*x);

pub assume_specification<P: Pattern>[ str::replace::<P> ](s: &str, from: P, to: &str) -> (r: String)
    ensures pat_is_char(from) ==> r@ == replace_char(s@, pat_char(from), to@);
} // verus!
} // mod vstr
