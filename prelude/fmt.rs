pub mod vfmt {
use vstd::prelude::*;
verus! {
// ---- trusted prelude M1: format! with bare {} placeholders is concatenation of Display output ----
pub uninterp spec fn disp_spec<T: ?Sized>(t: &T) -> Seq<char>;
pub broadcast axiom fn axiom_disp_string(s: &String) ensures #[trigger] disp_spec::<String>(s) == s@;
pub broadcast axiom fn axiom_disp_str(s: &str) ensures #[trigger] disp_spec::<str>(s) == s@;
pub broadcast axiom fn axiom_disp_refstr(s: &&str) ensures #[trigger] disp_spec::<&str>(s) == (*s)@;
pub broadcast axiom fn axiom_disp_refstring(s: &&String) ensures #[trigger] disp_spec::<&String>(s) == (*s)@;

#[verifier::external_body]
pub fn vdisp<T: std::fmt::Display + ?Sized>(t: &T) -> (r: String) ensures r@ == disp_spec::<T>(t) { t.to_string() }

// String::to_string copies the text (vstd leaves the Display-based to_string of String unspecified)
pub broadcast axiom fn axiom_string_to_string(s: &String, r: String)
    ensures #[trigger] vstd::string::to_string_from_display_ensures::<String>(s, r) ==> r@ == s@;

#[verifier::external_body]
pub fn vcat1(a: &str) -> (r: String) ensures r@ == a@ { a.to_string() }

#[verifier::external_body]
pub fn vcat2(a: &str, b: &str) -> (r: String) ensures r@ == a@ + b@ { [a, b].concat() }
#[verifier::external_body]
pub fn vcat3(a: &str, b: &str, c: &str) -> (r: String) ensures r@ == a@ + b@ + c@ { [a, b, c].concat() }
#[verifier::external_body]
pub fn vcat4(a: &str, b: &str, c: &str, d: &str) -> (r: String) ensures r@ == a@ + b@ + c@ + d@ { [a, b, c, d].concat() }
#[verifier::external_body]
pub fn vcat5(a: &str, b: &str, c: &str, d: &str, e: &str) -> (r: String) ensures r@ == a@ + b@ + c@ + d@ + e@ { [a, b, c, d, e].concat() }
#[verifier::external_body]
pub fn vcat6(a: &str, b: &str, c: &str, d: &str, e: &str, f: &str) -> (r: String) ensures r@ == a@ + b@ + c@ + d@ + e@ + f@ { [a, b, c, d, e, f].concat() }
#[verifier::external_body]
pub fn vcat7(a: &str, b: &str, c: &str, d: &str, e: &str, f: &str, g: &str) -> (r: String) ensures r@ == a@ + b@ + c@ + d@ + e@ + f@ + g@ { [a, b, c, d, e, f, g].concat() }
#[verifier::external_body]
pub fn vcat8(a: &str, b: &str, c: &str, d: &str, e: &str, f: &str, g: &str, h: &str) -> (r: String) ensures r@ == a@ + b@ + c@ + d@ + e@ + f@ + g@ + h@ { [a, b, c, d, e, f, g, h].concat() }
#[verifier::external_body]
pub fn vcat9(a: &str, b: &str, c: &str, d: &str, e: &str, f: &str, g: &str, h: &str, i: &str) -> (r: String) ensures r@ == a@ + b@ + c@ + d@ + e@ + f@ + g@ + h@ + i@ { [a, b, c, d, e, f, g, h, i].concat() }
#[verifier::external_body]
pub fn vcat10(a: &str, b: &str, c: &str, d: &str, e: &str, f: &str, g: &str, h: &str, i: &str, j: &str) -> (r: String) ensures r@ == a@ + b@ + c@ + d@ + e@ + f@ + g@ + h@ + i@ + j@ { [a, b, c, d, e, f, g, h, i, j].concat() }
#[verifier::external_body]
pub fn vcat11(a: &str, b: &str, c: &str, d: &str, e: &str, f: &str, g: &str, h: &str, i: &str, j: &str, k: &str) -> (r: String) ensures r@ == a@ + b@ + c@ + d@ + e@ + f@ + g@ + h@ + i@ + j@ + k@ { [a, b, c, d, e, f, g, h, i, j, k].concat() }
// ---- trusted M1b: Display for usize prints its decimal digits: a non-empty string of ASCII digits, different for different numbers
pub open spec fn is_digits(s: Seq<char>) -> bool { s.len() > 0 && forall|i: int| 0 <= i < s.len() ==> '0' <= #[trigger] s[i] && s[i] <= '9' }
pub broadcast axiom fn axiom_disp_usize_digits(a: &usize) ensures is_digits(#[trigger] disp_spec::<usize>(a));
pub broadcast axiom fn axiom_disp_usize_injective(a: &usize, b: &usize)
    ensures #![trigger disp_spec::<usize>(a), disp_spec::<usize>(b)] disp_spec::<usize>(a) == disp_spec::<usize>(b) ==> *a == *b;
pub broadcast group group_disp_usize { axiom_disp_usize_digits, axiom_disp_usize_injective }
pub broadcast group group_disp { axiom_string_to_string, axiom_disp_string, axiom_disp_str, axiom_disp_refstr, axiom_disp_refstring }
} // verus!
} // mod vfmt
