pub mod vpre {
use vstd::prelude::*;
use vstd::std_specs::hash::*;
use vstd::std_specs::iter::IteratorSpec;
use std::collections::{HashMap, HashSet};
use std::alloc::Allocator;
verus! {
// ---- trusted prelude: String keys, &str lookups, iteration of &HashSet (DESIGN.md §4) ----
pub broadcast axiom fn axiom_string_key_model()
    ensures #[trigger] obeys_key_model::<String>();

pub broadcast axiom fn axiom_string_ext(a: String, b: String)
    ensures #[trigger] a@ == #[trigger] b@ ==> a == b;

pub broadcast axiom fn axiom_str_ext(a: &str, b: &str)
    ensures #[trigger] a@ == #[trigger] b@ ==> a == b;

pub uninterp spec fn string_of(s: Seq<char>) -> String;

pub broadcast axiom fn axiom_string_of(s: Seq<char>)
    ensures (#[trigger] string_of(s))@ == s;

pub broadcast axiom fn axiom_set_contains_str(m: Set<String>, k: &str)
    ensures #[trigger] set_contains_borrowed_key::<String, str>(m, k)
        <==> m.contains(string_of(k@));

pub broadcast axiom fn axiom_map_contains_str<V>(m: Map<String, V>, k: &str)
    ensures #[trigger] contains_borrowed_key::<String, V, str>(m, k)
        <==> m.contains_key(string_of(k@));

pub broadcast axiom fn axiom_map_value_str<V>(m: Map<String, V>, k: &str, v: V)
    ensures #[trigger] maps_borrowed_key_to_value::<String, V, str>(m, k, v)
        <==> (m.contains_key(string_of(k@)) && m[string_of(k@)] == v);

pub broadcast axiom fn axiom_set_removed_str(old_m: Set<String>, new_m: Set<String>, k: &str)
    ensures #[trigger] sets_differ_by_borrowed_key::<String, str>(old_m, new_m, k)
        <==> new_m == old_m.remove(string_of(k@));

// String::from(&str) / (&str).into() copy the text (std documentation); vstd routes From through FromSpec
pub broadcast axiom fn axiom_string_from_str_obeys()
    ensures #[trigger] <String as vstd::std_specs::convert::FromSpec<&str>>::obeys_from_spec();
pub broadcast axiom fn axiom_string_from_str(s: &str)
    ensures (#[trigger] <String as vstd::std_specs::convert::FromSpec<&str>>::from_spec(s))@ == s@;

pub broadcast axiom fn axiom_string_from_string_ref_obeys()
    ensures #[trigger] <String as vstd::std_specs::convert::FromSpec<&String>>::obeys_from_spec();
pub broadcast axiom fn axiom_string_from_string_ref(s: &String)
    ensures (#[trigger] <String as vstd::std_specs::convert::FromSpec<&String>>::from_spec(s))@ == s@;

pub broadcast group group_string_keys {
    axiom_string_key_model, axiom_string_ext, axiom_str_ext, axiom_string_of,
    axiom_set_contains_str, axiom_map_contains_str, axiom_map_value_str, axiom_set_removed_str,
    axiom_string_from_str_obeys, axiom_string_from_str, axiom_string_from_string_ref_obeys, axiom_string_from_string_ref,
}

// ToOwned::to_owned of a Clone type is clone (std: blanket impl<T: Clone> ToOwned for T)
pub assume_specification<T: Clone>[ <T as std::borrow::ToOwned>::to_owned ](t: &T) -> (r: T)
    ensures vstd::pervasive::cloned(*t, r);

// `for x in &HashSet` — same facts vstd gives for `.iter()`
pub assume_specification<'a, T, S, A: Allocator>[ <&'a HashSet<T, S, A> as IntoIterator>::into_iter ]
    (s: &'a HashSet<T, S, A>) -> (r: std::collections::hash_set::Iter<'a, T>)
    ensures r.obeys_prophetic_iter_laws(), r.decrease() is Some,
            r.remaining().no_duplicates(),
            r.remaining().len() == s@.len(),
            forall|i: int| 0 <= i < r.remaining().len() ==> s@.contains(*#[trigger] r.remaining()[i]),
            forall|x: T| s@.contains(x) ==> exists|i: int| 0 <= i < r.remaining().len() && *#[trigger] r.remaining()[i] == x;


// HashSet::clone yields the same abstract set
pub assume_specification<T: Clone, S: Clone, A: Allocator + Clone>[ <HashSet<T, S, A> as Clone>::clone ]
    (s: &HashSet<T, S, A>) -> (r: HashSet<T, S, A>)
    ensures r@ == s@;

// Result::unwrap_or (std documentation)
pub assume_specification<T, E>[ std::result::Result::<T, E>::unwrap_or ](r: std::result::Result<T, E>, default: T) -> (out: T)
    where E: std::marker::Destruct, T: std::marker::Destruct
    ensures out == (match r { Ok(v) => v, Err(_) => default });

// W1: `for x in <owned HashSet>` — std::collections::hash_set::IntoIter cannot be given an
// iterator specification from outside vstd (orphan rule), so the iteration source is wrapped:
// the elements are visited once each, in some order.
#[verifier::external_body]
pub fn owned_set_iteration_order<T>(s: HashSet<T>) -> (r: Vec<T>)
    ensures r@.no_duplicates(), r@.to_set() == s@,
{ s.into_iter().collect() }

} // verus!
} // mod vpre
