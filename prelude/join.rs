pub mod vjoin {
use vstd::prelude::*;
verus! {
// ---- trusted prelude: <[String]>::join(&str) ----
#[verifier::external_trait_specification]
pub trait ExJoin<Separator> {
    type ExternalTraitSpecificationFor: std::slice::Join<Separator>;
    type Output;
}
pub uninterp spec fn join_post<T, S, O>(v: Seq<T>, sep: S, out: O) -> bool;

pub open spec fn join_spec(v: Seq<String>, sep: Seq<char>) -> Seq<char>
    decreases v.len()
{
    if v.len() == 0 { Seq::<char>::empty() }
    else if v.len() == 1 { v[0]@ }
    else { join_spec(v.drop_last(), sep) + sep + v.last()@ }
}

pub broadcast axiom fn axiom_join_string(v: Seq<String>, sep: &str, out: String)
    ensures #[trigger] join_post::<String, &str, String>(v, sep, out) ==> out@ == join_spec(v, sep@);

pub assume_specification<T, Separator>[ <[T]>::join::<Separator> ]
    (v: &[T], sep: Separator) -> (r: <[T] as std::slice::Join<Separator>>::Output)
    where [T]: std::slice::Join<Separator>
    ensures join_post(v@, sep, r);
} // verus!
} // mod vjoin
