#!/bin/bash
# Run once after a fresh restore (offline): warm the build cache of the bounded native harness crate
# (all dependencies of /repo compiled with --cfg thwbh_tauri_typegen_verif) and check the verifier runs.
cd "$(dirname "$0")"
verus --version >/dev/null || { echo "verus not found"; exit 1; }
python3 - <<'PY'
import importlib.machinery, importlib.util, os, sys
here = os.getcwd()
loader = importlib.machinery.SourceFileLoader('check_mod', os.path.join(here, 'check'))
spec = importlib.util.spec_from_loader('check_mod', loader)
mod = importlib.util.module_from_spec(spec); loader.exec_module(mod)
bindir, err = mod.build_native_crate()
print('native harness crate:', 'built in ' + bindir if not err else 'BUILD FAILED\n' + err)
sys.exit(1 if err else 0)
PY
